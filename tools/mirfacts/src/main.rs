// mirfacts: rustc_private driver that exports the type-checked program (MIR,
// ADT layouts, resolved callees) of the crate `gb_dynarec` as one JSON file.
// Used as RUSTC_WORKSPACE_WRAPPER under `cargo +nightly check`.
// Output path: $MIRFACTS_OUT (required). One write per process.
#![feature(rustc_private)]
extern crate rustc_abi;
extern crate rustc_driver;
extern crate rustc_hir;
extern crate rustc_interface;
extern crate rustc_middle;
extern crate rustc_span;

use rustc_driver::Compilation;
use rustc_hir::def::DefKind;
use rustc_hir::def_id::{DefId, LOCAL_CRATE};
use rustc_middle::mir::{
  self, AggregateKind, AssertKind, BinOp, BorrowKind, CastKind, Operand, Place, ProjectionElem,
  Rvalue, StatementKind, TerminatorKind, UnOp,
};
use rustc_middle::ty::{self, Instance, Ty, TyCtxt, TypingEnv};
use std::fmt::Write as _;

const CRATE: &str = "gb_dynarec";

fn esc(s: &str) -> String {
  let mut o = String::with_capacity(s.len() + 2);
  o.push('"');
  for c in s.chars() {
    match c {
      '"' => o.push_str("\\\""),
      '\\' => o.push_str("\\\\"),
      '\n' => o.push_str("\\n"),
      '\r' => o.push_str("\\r"),
      '\t' => o.push_str("\\t"),
      c if (c as u32) < 0x20 => {
        let _ = write!(o, "\\u{:04x}", c as u32);
      }
      c => o.push(c),
    }
  }
  o.push('"');
  o
}

struct Cx<'tcx, 'b> {
  tcx: TyCtxt<'tcx>,
  body: &'b mir::Body<'tcx>,
  env: TypingEnv<'tcx>,
}

fn ty_str<'tcx>(ty: Ty<'tcx>) -> String {
  format!("{}", ty)
}

impl<'tcx, 'b> Cx<'tcx, 'b> {
  fn place(&self, p: &Place<'tcx>) -> String {
    let mut s = format!("{{\"local\":{},\"proj\":[", p.local.as_usize());
    for (i, elem) in p.projection.iter().enumerate() {
      if i > 0 {
        s.push(',');
      }
      let base_ty = Place::ty_from(p.local, &p.projection[..i], &self.body.local_decls, self.tcx);
      match elem {
        ProjectionElem::Deref => s.push_str("{\"k\":\"deref\"}"),
        ProjectionElem::Field(f, fty) => {
          let mut name = format!("{}", f.as_usize());
          let mut owner = String::new();
          if let ty::Adt(adt, _) = base_ty.ty.kind() {
            owner = self.tcx.def_path_str(adt.did());
            let variant = match base_ty.variant_index {
              Some(v) => adt.variant(v),
              None => {
                if adt.is_enum() {
                  adt.variant(rustc_abi::VariantIdx::from_usize(0))
                } else {
                  adt.non_enum_variant()
                }
              }
            };
            if let Some(fd) = variant.fields.get(f) {
              name = fd.name.to_string();
            }
          }
          let _ = write!(
            s,
            "{{\"k\":\"field\",\"i\":{},\"name\":{},\"owner\":{},\"ty\":{}}}",
            f.as_usize(),
            esc(&name),
            esc(&owner),
            esc(&ty_str(fty))
          );
        }
        ProjectionElem::Index(l) => {
          let _ = write!(s, "{{\"k\":\"index\",\"local\":{}}}", l.as_usize());
        }
        ProjectionElem::ConstantIndex { offset, min_length, from_end } => {
          let _ = write!(
            s,
            "{{\"k\":\"cindex\",\"offset\":{},\"min_length\":{},\"from_end\":{}}}",
            offset, min_length, from_end
          );
        }
        ProjectionElem::Subslice { from, to, from_end } => {
          let _ = write!(s, "{{\"k\":\"subslice\",\"from\":{},\"to\":{},\"from_end\":{}}}", from, to, from_end);
        }
        ProjectionElem::Downcast(name, vi) => {
          let n = name.map(|n| n.to_string()).unwrap_or_default();
          let _ = write!(s, "{{\"k\":\"downcast\",\"variant\":{},\"i\":{}}}", esc(&n), vi.as_usize());
        }
        other => {
          let _ = write!(s, "{{\"k\":\"other\",\"repr\":{}}}", esc(&format!("{:?}", other)));
        }
      }
    }
    s.push_str("]}");
    s
  }

  fn operand(&self, op: &Operand<'tcx>) -> String {
    match op {
      Operand::Copy(p) => format!("{{\"k\":\"copy\",\"place\":{}}}", self.place(p)),
      Operand::Move(p) => format!("{{\"k\":\"move\",\"place\":{}}}", self.place(p)),
      Operand::Constant(c) => {
        let ty = c.const_.ty();
        if let ty::FnDef(did, _) = ty.kind() {
          return format!("{{\"k\":\"fn\",\"path\":{}}}", esc(&self.tcx.def_path_str(*did)));
        }
        match c.const_.try_eval_scalar_int(self.tcx, self.env) {
          Some(si) => format!(
            "{{\"k\":\"const\",\"ty\":{},\"val\":{}}}",
            esc(&ty_str(ty)),
            si.to_bits_unchecked()
          ),
          None => {
            // promoted / unevaluated constants (e.g. `&Enum::Variant` used by a derived `==`): evaluate them so
            // that the pointee bytes can be exported
            let evaluated = match c.const_ {
              mir::Const::Unevaluated(..) => match c.const_.eval(self.tcx, self.env, c.span) {
                Ok(v) => Some(mir::Const::Val(v, ty)),
                Err(_) => None,
              },
              _ => None,
            };
            let bytes = const_bytes(self.tcx, evaluated.as_ref().unwrap_or(&c.const_));
            let relocs = const_fn_relocs(self.tcx, evaluated.as_ref().unwrap_or(&c.const_));
            let rj = if relocs.is_empty() {
              String::new()
            } else {
              format!(
                ",\"fnptrs\":[{}]",
                relocs.iter().map(|(o, p)| format!("[{},{}]", o, esc(p))).collect::<Vec<_>>().join(",")
              )
            };
            let bj = match &bytes {
              Some(b) => format!(",\"bytes\":[{}]", b.iter().map(|x| x.to_string()).collect::<Vec<_>>().join(",")),
              None => String::new(),
            };
            // layout of a struct-typed constant (e.g. the promoted `&(a..=b)` of a `contains` call), so that the
            // bytes can be read field by field
            let mut peeled = ty;
            while let ty::Ref(_, inner, _) = peeled.kind() {
              peeled = *inner;
            }
            let mut sj = String::new();
            // arrays / slices of tuples or structs (lookup tables): element layout
            let elem_ty = match peeled.kind() {
              ty::Array(e, _) => Some(*e),
              ty::Slice(e) => Some(*e),
              _ => None,
            };
            if let Some(et) = elem_ty {
              if let Ok(el) = self.tcx.layout_of(self.env.as_query_input(et)) {
                let mut fs: Vec<String> = Vec::new();
                let mut name = String::new();
                let mut ok = false;
                match et.kind() {
                  ty::Tuple(tys) => {
                    ok = true;
                    for (i, fty) in tys.iter().enumerate() {
                      let fsize = self.tcx.layout_of(self.env.as_query_input(fty)).map(|l| l.size.bytes() as i64).unwrap_or(-1);
                      fs.push(format!(
                        "{{\"name\":\"{}\",\"offset\":{},\"size\":{},\"ty\":{}}}",
                        i,
                        el.fields.offset(i).bytes(),
                        fsize,
                        esc(&ty_str(fty))
                      ));
                    }
                  }
                  ty::Adt(adt, args) if adt.is_struct() => {
                    ok = true;
                    name = self.tcx.def_path_str(adt.did());
                    for (i, f) in adt.non_enum_variant().fields.iter().enumerate() {
                      let fty = f.ty(self.tcx, args);
                      let fsize = self.tcx.layout_of(self.env.as_query_input(fty)).map(|l| l.size.bytes() as i64).unwrap_or(-1);
                      fs.push(format!(
                        "{{\"name\":{},\"offset\":{},\"size\":{},\"ty\":{}}}",
                        esc(&f.name.to_string()),
                        el.fields.offset(i).bytes(),
                        fsize,
                        esc(&ty_str(fty))
                      ));
                    }
                  }
                  _ => {}
                }
                if ok {
                  sj = format!(
                    ",\"elem\":{{\"size\":{},\"name\":{},\"fields\":[{}]}}",
                    el.size.bytes(),
                    esc(&name),
                    fs.join(",")
                  );
                }
              }
            }
            if let ty::Tuple(tys) = peeled.kind() {
              if let Ok(layout) = self.tcx.layout_of(self.env.as_query_input(peeled)) {
                let mut fs: Vec<String> = Vec::new();
                for (i, fty) in tys.iter().enumerate() {
                  let fsize = self.tcx.layout_of(self.env.as_query_input(fty)).map(|l| l.size.bytes() as i64).unwrap_or(-1);
                  fs.push(format!(
                    "{{\"name\":\"{}\",\"offset\":{},\"size\":{},\"ty\":{}}}",
                    i,
                    layout.fields.offset(i).bytes(),
                    fsize,
                    esc(&ty_str(fty))
                  ));
                }
                if !fs.is_empty() {
                  sj = format!(",\"struct\":{{\"name\":\"\",\"fields\":[{}]}}", fs.join(","));
                }
              }
            }
            if let ty::Adt(adt, args) = peeled.kind() {
              if adt.is_struct() {
                if let Ok(layout) = self.tcx.layout_of(self.env.as_query_input(peeled)) {
                  let mut fs: Vec<String> = Vec::new();
                  for (i, f) in adt.non_enum_variant().fields.iter().enumerate() {
                    let fty = f.ty(self.tcx, args);
                    let fsize = self.tcx.layout_of(self.env.as_query_input(fty)).map(|l| l.size.bytes() as i64).unwrap_or(-1);
                    fs.push(format!(
                      "{{\"name\":{},\"offset\":{},\"size\":{},\"ty\":{}}}",
                      esc(&f.name.to_string()),
                      layout.fields.offset(i).bytes(),
                      fsize,
                      esc(&ty_str(fty))
                    ));
                  }
                  sj = format!(
                    ",\"struct\":{{\"name\":{},\"fields\":[{}]}}",
                    esc(&self.tcx.def_path_str(adt.did())),
                    fs.join(",")
                  );
                }
              }
            }
            // the whole constant decoded by layout (tables of enums incl. Option<..> with niche tags, nested tuples)
            let dj = match (&bytes, relocs.is_empty()) {
              (Some(b), true) => match peeled.kind() {
                ty::Array(..) | ty::Tuple(..) | ty::Adt(..) => match decode_const(self.tcx, self.env, peeled, b, 0, 0) {
                  Some(j) => format!(",\"decoded\":{}", j),
                  None => String::new(),
                },
                _ => String::new(),
              },
              _ => String::new(),
            };
            let sj = format!("{}{}", sj, dj);
            format!(
              "{{\"k\":\"constx\",\"ty\":{},\"repr\":{}{}{}{}}}",
              esc(&ty_str(ty)),
              esc(&format!("{:?}", c.const_)),
              bj,
              sj,
              rj
            )
          }
        }
      }
      other => format!("{{\"k\":\"other\",\"repr\":{}}}", esc(&format!("{:?}", other))),
    }
  }

  fn op_ty(&self, op: &Operand<'tcx>) -> String {
    ty_str(op.ty(&self.body.local_decls, self.tcx))
  }

  fn rvalue(&self, rv: &Rvalue<'tcx>) -> String {
    match rv {
      Rvalue::Use(o, ..) => format!("{{\"k\":\"use\",\"op\":{}}}", self.operand(o)),
      Rvalue::BinaryOp(op, ops) => format!(
        "{{\"k\":\"binop\",\"op\":{},\"a\":{},\"b\":{},\"aty\":{}}}",
        esc(&binop_name(*op)),
        self.operand(&ops.0),
        self.operand(&ops.1),
        esc(&self.op_ty(&ops.0))
      ),
      Rvalue::UnaryOp(op, o) => format!(
        "{{\"k\":\"unop\",\"op\":{},\"a\":{},\"aty\":{}}}",
        esc(&unop_name(*op)),
        self.operand(o),
        esc(&self.op_ty(o))
      ),
      Rvalue::Cast(kind, o, t) => {
        let mut reified = String::new();
        if let CastKind::PointerCoercion(..) = kind {
          if let ty::FnDef(did, _) = o.ty(&self.body.local_decls, self.tcx).kind() {
            reified = self.tcx.def_path_str(*did);
          }
        }
        format!(
          "{{\"k\":\"cast\",\"kind\":{},\"op\":{},\"from\":{},\"to\":{},\"fn\":{}}}",
          esc(&cast_name(kind)),
          self.operand(o),
          esc(&self.op_ty(o)),
          esc(&ty_str(*t)),
          esc(&reified)
        )
      }
      Rvalue::Aggregate(kind, ops) => {
        let k = match &**kind {
          AggregateKind::Array(t) => format!("{{\"k\":\"array\",\"ty\":{}}}", esc(&ty_str(*t))),
          AggregateKind::Tuple => "{\"k\":\"tuple\"}".to_string(),
          AggregateKind::Adt(did, vi, _, _, _) => {
            let adt = self.tcx.adt_def(*did);
            let v = adt.variant(*vi);
            let fields: Vec<String> = v.fields.iter().map(|f| esc(&f.name.to_string())).collect();
            format!(
              "{{\"k\":\"adt\",\"name\":{},\"variant\":{},\"vi\":{},\"is_enum\":{},\"fields\":[{}]}}",
              esc(&self.tcx.def_path_str(*did)),
              esc(&v.name.to_string()),
              vi.as_usize(),
              adt.is_enum(),
              fields.join(",")
            )
          }
          AggregateKind::Closure(did, _) => {
            format!("{{\"k\":\"closure\",\"path\":{}}}", esc(&self.tcx.def_path_str(*did)))
          }
          other => format!("{{\"k\":\"other\",\"repr\":{}}}", esc(&format!("{:?}", other))),
        };
        let os: Vec<String> = ops.iter().map(|o| self.operand(o)).collect();
        format!("{{\"k\":\"aggregate\",\"kind\":{},\"ops\":[{}]}}", k, os.join(","))
      }
      Rvalue::Ref(_, bk, p) => format!(
        "{{\"k\":\"ref\",\"mut\":{},\"place\":{}}}",
        matches!(bk, BorrowKind::Mut { .. }),
        self.place(p)
      ),
      Rvalue::RawPtr(_, p) => format!("{{\"k\":\"rawptr\",\"place\":{}}}", self.place(p)),
      Rvalue::Discriminant(p) => format!("{{\"k\":\"discriminant\",\"place\":{}}}", self.place(p)),
      Rvalue::Repeat(o, n) => {
        let cnt = n.try_to_target_usize(self.tcx).map(|v| v as i128).unwrap_or(-1);
        format!("{{\"k\":\"repeat\",\"op\":{},\"count\":{}}}", self.operand(o), cnt)
      }
      Rvalue::CopyForDeref(p) => format!("{{\"k\":\"use\",\"op\":{{\"k\":\"copy\",\"place\":{}}}}}", self.place(p)),
      other => format!("{{\"k\":\"other\",\"repr\":{}}}", esc(&format!("{:?}", other))),
    }
  }

  fn span(&self, sp: rustc_span::Span) -> (String, usize, bool) {
    let sm = self.tcx.sess.source_map();
    // For expansions, report the call site so the reader lands in crate source.
    let exp = sp.from_expansion();
    let sp2 = if exp { sp.source_callsite() } else { sp };
    let lo = sm.lookup_char_pos(sp2.lo());
    let file = match &lo.file.name {
      rustc_span::FileName::Real(r) => format!("{}", r.local_path().map(|p| p.display().to_string()).unwrap_or_else(|| format!("{:?}", r))),
      other => format!("{:?}", other),
    };
    (file, lo.line, exp)
  }
}

fn const_bytes<'tcx>(tcx: TyCtxt<'tcx>, c: &mir::Const<'tcx>) -> Option<Vec<u8>> {
  use rustc_middle::mir::interpret::{GlobalAlloc, Scalar};
  use rustc_middle::mir::ConstValue;
  let mir::Const::Val(cv, _ty) = c else { return None };
  match cv {
    ConstValue::Scalar(Scalar::Ptr(ptr, _)) => {
      let (prov, off) = ptr.prov_and_relative_offset();
      let GlobalAlloc::Memory(alloc) = tcx.global_alloc(prov.alloc_id()) else { return None };
      let a = alloc.inner();
      let start = off.bytes() as usize;
      Some(a.inspect_with_uninit_and_ptr_outside_interpreter(start..a.len()).to_vec())
    }
    ConstValue::Indirect { alloc_id, offset } => {
      let GlobalAlloc::Memory(alloc) = tcx.global_alloc(*alloc_id) else { return None };
      let a = alloc.inner();
      let start = offset.bytes() as usize;
      Some(a.inspect_with_uninit_and_ptr_outside_interpreter(start..a.len()).to_vec())
    }
    ConstValue::Slice { alloc_id, meta } => {
      let GlobalAlloc::Memory(alloc) = tcx.global_alloc(*alloc_id) else { return None };
      let a = alloc.inner();
      let n = (*meta as usize).min(a.len());
      Some(a.inspect_with_uninit_and_ptr_outside_interpreter(0..n).to_vec())
    }
    _ => None,
  }
}

/// Decode `bytes[off..]` as a value of type `ty` using the computed layouts (field offsets, enum tags incl. niche
/// encodings).  -> JSON, or None when the type contains anything but integers, bools, arrays, tuples, structs and enums
/// of those (pointers, floats, unions ...).  {"i":n,"ty":"u8"} | {"arr":[..]} | {"tup":[..]} |
/// {"adt":path,"variant":idx,"vname":name,"fields":[..]}
fn decode_const<'tcx>(tcx: TyCtxt<'tcx>, env: TypingEnv<'tcx>, ty: Ty<'tcx>, bytes: &[u8], off: usize, depth: usize) -> Option<String> {
  use rustc_abi::{TagEncoding, Variants};
  use rustc_middle::ty::layout::LayoutCx;
  if depth > 6 {
    return None;
  }
  let layout = tcx.layout_of(env.as_query_input(ty)).ok()?;
  let size = layout.size.bytes() as usize;
  if off + size > bytes.len() {
    return None;
  }
  let read = |o: usize, n: usize| -> Option<u128> {
    if n > 16 || o + n > bytes.len() {
      return None;
    }
    let mut v: u128 = 0;
    for k in 0..n {
      v |= (bytes[o + k] as u128) << (8 * k);
    }
    Some(v)
  };
  match ty.kind() {
    ty::Bool | ty::Uint(_) | ty::Int(_) | ty::Char => {
      let v = read(off, size)?;
      Some(format!("{{\"i\":{},\"ty\":{}}}", v, esc(&ty_str(ty))))
    }
    ty::Array(et, _) => {
      let el = tcx.layout_of(env.as_query_input(*et)).ok()?;
      let es = el.size.bytes() as usize;
      if es == 0 || size % es != 0 || size / es > 4096 {
        return None;
      }
      let mut items = Vec::new();
      for k in 0..(size / es) {
        items.push(decode_const(tcx, env, *et, bytes, off + k * es, depth + 1)?);
      }
      Some(format!("{{\"arr\":[{}]}}", items.join(",")))
    }
    ty::Tuple(tys) => {
      let mut items = Vec::new();
      for (i, fty) in tys.iter().enumerate() {
        items.push(decode_const(tcx, env, fty, bytes, off + layout.fields.offset(i).bytes() as usize, depth + 1)?);
      }
      Some(format!("{{\"tup\":[{}]}}", items.join(",")))
    }
    ty::Adt(adt, args) if adt.is_struct() => {
      let mut items = Vec::new();
      for (i, f) in adt.non_enum_variant().fields.iter().enumerate() {
        let fty = f.ty(tcx, args);
        items.push(decode_const(tcx, env, fty, bytes, off + layout.fields.offset(i).bytes() as usize, depth + 1)?);
      }
      let name = tcx.def_path_str(adt.did());
      Some(format!(
        "{{\"adt\":{},\"variant\":0,\"vname\":{},\"fields\":[{}]}}",
        esc(&name),
        esc(name.rsplit("::").next().unwrap_or("")),
        items.join(",")
      ))
    }
    ty::Adt(adt, args) if adt.is_enum() => {
      let vidx = match &layout.variants {
        Variants::Single { index } => *index,
        Variants::Multiple { tag, tag_encoding, tag_field, .. } => {
          let tsize = tag.size(&tcx).bytes() as usize;
          let toff = off + layout.fields.offset((*tag_field).into()).bytes() as usize;
          let tv = read(toff, tsize)?;
          let mask: u128 = if tsize >= 16 { u128::MAX } else { (1u128 << (8 * tsize)) - 1 };
          match tag_encoding {
            TagEncoding::Direct => {
              let mut found = None;
              for (vi, d) in adt.discriminants(tcx) {
                if (d.val & mask) == tv {
                  found = Some(vi);
                }
              }
              found?
            }
            TagEncoding::Niche { untagged_variant, niche_variants, niche_start } => {
              let rel = tv.wrapping_sub(*niche_start) & mask;
              let lo = niche_variants.start().as_u32() as u128;
              let hi = niche_variants.end().as_u32() as u128;
              if rel <= hi - lo {
                rustc_abi::VariantIdx::from_u32((lo + rel) as u32)
              } else {
                *untagged_variant
              }
            }
          }
        }
        _ => return None,
      };
      let cx = LayoutCx::new(tcx, env);
      let vl = layout.for_variant(&cx, vidx);
      let vdef = adt.variant(vidx);
      let mut items = Vec::new();
      for (i, f) in vdef.fields.iter().enumerate() {
        let fty = f.ty(tcx, args);
        items.push(decode_const(tcx, env, fty, bytes, off + vl.fields.offset(i).bytes() as usize, depth + 1)?);
      }
      Some(format!(
        "{{\"adt\":{},\"variant\":{},\"vname\":{},\"fields\":[{}]}}",
        esc(&tcx.def_path_str(adt.did())),
        vidx.as_u32(),
        esc(&vdef.name.to_string()),
        items.join(",")
      ))
    }
    _ => None,
  }
}

/// function pointers stored in a constant allocation (e.g. a table of constructors): (byte offset, def path)
fn const_fn_relocs<'tcx>(tcx: TyCtxt<'tcx>, c: &mir::Const<'tcx>) -> Vec<(u64, String)> {
  use rustc_middle::mir::interpret::{GlobalAlloc, Scalar};
  use rustc_middle::mir::ConstValue;
  let mut out = Vec::new();
  let mir::Const::Val(cv, _ty) = c else { return out };
  let (aid, start) = match cv {
    ConstValue::Scalar(Scalar::Ptr(ptr, _)) => {
      let (prov, off) = ptr.prov_and_relative_offset();
      (prov.alloc_id(), off.bytes())
    }
    ConstValue::Indirect { alloc_id, offset } => (*alloc_id, offset.bytes()),
    ConstValue::Slice { alloc_id, .. } => (*alloc_id, 0),
    _ => return out,
  };
  let GlobalAlloc::Memory(alloc) = tcx.global_alloc(aid) else { return out };
  for (off, prov) in alloc.inner().provenance().ptrs().iter() {
    if off.bytes() < start {
      continue;
    }
    if let GlobalAlloc::Function { instance, .. } = tcx.global_alloc(prov.alloc_id()) {
      out.push((off.bytes() - start, tcx.def_path_str(instance.def_id())));
    }
  }
  out
}

fn binop_name(op: BinOp) -> String {
  format!("{:?}", op)
}
fn unop_name(op: UnOp) -> String {
  format!("{:?}", op)
}
fn cast_name(k: &CastKind) -> String {
  match k {
    CastKind::IntToInt => "IntToInt".into(),
    CastKind::PointerCoercion(c, _) => format!("PointerCoercion({:?})", c),
    CastKind::PointerExposeProvenance => "PointerExposeProvenance".into(),
    CastKind::PointerWithExposedProvenance => "PointerWithExposedProvenance".into(),
    CastKind::PtrToPtr => "PtrToPtr".into(),
    CastKind::Transmute => "Transmute".into(),
    other => format!("{:?}", other),
  }
}

fn dyn_impls<'tcx>(tcx: TyCtxt<'tcx>, method: DefId) -> Vec<String> {
  // For a trait method, list every impl's implementation of it (or the trait
  // default when the impl does not override it).
  let mut out = Vec::new();
  let Some(trait_did) = tcx.trait_of_assoc(method) else { return out };
  for impl_did in tcx.all_impls(trait_did) {
    let map = tcx.impl_item_implementor_ids(impl_did);
    match map.get(&method) {
      Some(id) => out.push(tcx.def_path_str(*id)),
      None => out.push(tcx.def_path_str(method)),
    }
  }
  out.sort();
  out.dedup();
  out
}

fn export_fn<'tcx>(tcx: TyCtxt<'tcx>, did: DefId, out: &mut String, stats: &mut (usize, usize, usize)) {
  let body = tcx.optimized_mir(did);
  let env = TypingEnv::post_analysis(tcx, did);
  let cx = Cx { tcx, body, env };
  let name = tcx.def_path_str(did);
  let is_fn = matches!(tcx.def_kind(did), DefKind::Fn | DefKind::AssocFn);
  let abi = if is_fn { format!("{:?}", tcx.fn_sig(did).skip_binder().abi()) } else { "closure".to_string() };
  let (file, line, _) = cx.span(body.span);
  let vis = if is_fn { format!("{:?}", tcx.visibility(did)) } else { "closure".to_string() };
  let _ = write!(
    out,
    "{}:{{\"abi\":{},\"file\":{},\"line\":{},\"vis\":{},\"arg_count\":{},\"locals\":[",
    esc(&name),
    esc(&abi),
    esc(&file),
    line,
    esc(&vis),
    body.arg_count
  );
  // local names from debug info
  let mut names: Vec<String> = vec![String::new(); body.local_decls.len()];
  for vdi in &body.var_debug_info {
    if let mir::VarDebugInfoContents::Place(p) = &vdi.value {
      if p.projection.is_empty() {
        names[p.local.as_usize()] = vdi.name.to_string();
      }
    }
  }
  for (i, (_l, decl)) in body.local_decls.iter_enumerated().enumerate() {
    if i > 0 {
      out.push(',');
    }
    let _ = write!(out, "{{\"ty\":{},\"name\":{}}}", esc(&ty_str(decl.ty)), esc(&names[i]));
  }
  out.push_str("],\"blocks\":[");
  for (bi, (_bb, data)) in body.basic_blocks.iter_enumerated().enumerate() {
    if bi > 0 {
      out.push(',');
    }
    let _ = write!(out, "{{\"cleanup\":{},\"stmts\":[", data.is_cleanup);
    let mut first = true;
    for st in &data.statements {
      let (_f, ln, exp) = cx.span(st.source_info.span);
      let js = match &st.kind {
        StatementKind::Assign(b) => {
          let (place, rv) = &**b;
          format!(
            "{{\"k\":\"assign\",\"place\":{},\"rv\":{},\"line\":{},\"exp\":{}}}",
            cx.place(place),
            cx.rvalue(rv),
            ln,
            exp
          )
        }
        StatementKind::SetDiscriminant { place, variant_index } => format!(
          "{{\"k\":\"setdiscr\",\"place\":{},\"vi\":{},\"line\":{},\"exp\":{}}}",
          cx.place(place),
          variant_index.as_usize(),
          ln,
          exp
        ),
        StatementKind::StorageLive(_)
        | StatementKind::StorageDead(_)
        | StatementKind::Nop
        | StatementKind::FakeRead(..)
        | StatementKind::PlaceMention(..)
        | StatementKind::AscribeUserType(..)
        | StatementKind::Coverage(..)
        | StatementKind::ConstEvalCounter
        | StatementKind::BackwardIncompatibleDropHint { .. } => continue,
        other => format!(
          "{{\"k\":\"other\",\"repr\":{},\"line\":{},\"exp\":{}}}",
          esc(&format!("{:?}", other)),
          ln,
          exp
        ),
      };
      if !first {
        out.push(',');
      }
      first = false;
      out.push_str(&js);
    }
    out.push_str("],\"term\":");
    let term = data.terminator();
    let (_f, ln, exp) = cx.span(term.source_info.span);
    let tj = match &term.kind {
      TerminatorKind::Goto { target } => format!("{{\"k\":\"goto\",\"target\":{}", target.as_usize()),
      TerminatorKind::SwitchInt { discr, targets } => {
        let ts: Vec<String> = targets.iter().map(|(v, t)| format!("[{},{}]", v, t.as_usize())).collect();
        format!(
          "{{\"k\":\"switch\",\"discr\":{},\"dty\":{},\"targets\":[{}],\"otherwise\":{}",
          cx.operand(discr),
          esc(&cx.op_ty(discr)),
          ts.join(","),
          targets.otherwise().as_usize()
        )
      }
      TerminatorKind::Return => "{\"k\":\"return\"".to_string(),
      TerminatorKind::Unreachable => "{\"k\":\"unreachable\"".to_string(),
      TerminatorKind::UnwindResume => "{\"k\":\"resume\"".to_string(),
      TerminatorKind::UnwindTerminate(_) => "{\"k\":\"terminate\"".to_string(),
      TerminatorKind::Drop { place, target, .. } => format!(
        "{{\"k\":\"drop\",\"place\":{},\"pty\":{},\"target\":{}",
        cx.place(place),
        esc(&ty_str(place.ty(&body.local_decls, tcx).ty)),
        target.as_usize()
      ),
      TerminatorKind::Call { func, args, destination, target, .. } => {
        stats.2 += 1;
        let fty = func.ty(&body.local_decls, tcx);
        let mut callee = String::new();
        let mut resolved = String::new();
        let mut kind = "indirect".to_string();
        let mut impls: Vec<String> = Vec::new();
        let mut generic_args = String::new();
        if let ty::FnDef(cd, ga) = fty.kind() {
          callee = tcx.def_path_str(*cd);
          generic_args = format!("{:?}", ga);
          match Instance::try_resolve(tcx, env, *cd, ga) {
            Ok(Some(inst)) => {
              resolved = tcx.def_path_str(inst.def_id());
              kind = match inst.def {
                ty::InstanceKind::Item(_) => "item".into(),
                ty::InstanceKind::Virtual(..) => "virtual".into(),
                ty::InstanceKind::Intrinsic(_) => "intrinsic".into(),
                other => format!("{:?}", std::mem::discriminant(&other)),
              };
              if let ty::InstanceKind::Virtual(..) = inst.def {
                impls = dyn_impls(tcx, *cd);
              }
            }
            _ => {
              kind = "unresolved".into();
            }
          }
        }
        let aj: Vec<String> = args.iter().map(|a| cx.operand(&a.node)).collect();
        let impls_j: Vec<String> = impls.iter().map(|s| esc(s)).collect();
        format!(
          "{{\"k\":\"call\",\"func\":{},\"callee\":{},\"resolved\":{},\"ckind\":{},\"impls\":[{}],\"generics\":{},\"args\":[{}],\"dest\":{},\"target\":{}",
          cx.operand(func),
          esc(&callee),
          esc(&resolved),
          esc(&kind),
          impls_j.join(","),
          esc(&generic_args),
          aj.join(","),
          cx.place(destination),
          target.map(|t| t.as_usize() as i64).unwrap_or(-1)
        )
      }
      TerminatorKind::Assert { cond, expected, msg, target, .. } => {
        stats.1 += 1;
        let (kind, detail) = match &**msg {
          AssertKind::BoundsCheck { len, index } => (
            "bounds".to_string(),
            format!(",\"len\":{},\"index\":{}", cx.operand(len), cx.operand(index)),
          ),
          AssertKind::Overflow(op, a, b) => (
            format!("overflow:{:?}", op),
            format!(",\"a\":{},\"b\":{}", cx.operand(a), cx.operand(b)),
          ),
          AssertKind::OverflowNeg(a) => ("overflow_neg".to_string(), format!(",\"a\":{}", cx.operand(a))),
          AssertKind::DivisionByZero(a) => ("div_zero".to_string(), format!(",\"a\":{}", cx.operand(a))),
          AssertKind::RemainderByZero(a) => ("rem_zero".to_string(), format!(",\"a\":{}", cx.operand(a))),
          AssertKind::MisalignedPointerDereference { .. } => ("misaligned".to_string(), String::new()),
          AssertKind::NullPointerDereference => ("null_deref".to_string(), String::new()),
          AssertKind::InvalidEnumConstruction(_) => ("invalid_enum".to_string(), String::new()),
          other => (format!("other:{:?}", std::mem::discriminant(other)), String::new()),
        };
        format!(
          "{{\"k\":\"assert\",\"cond\":{},\"expected\":{},\"akind\":{}{},\"target\":{}",
          cx.operand(cond),
          expected,
          esc(&kind),
          detail,
          target.as_usize()
        )
      }
      other => format!("{{\"k\":\"other\",\"repr\":{}", esc(&format!("{:?}", other))),
    };
    out.push_str(&tj);
    let _ = write!(out, ",\"line\":{},\"exp\":{}}}}}", ln, exp);
  }
  out.push_str("]}");
  stats.0 += 1;
}

fn export_adts<'tcx>(tcx: TyCtxt<'tcx>, out: &mut String) {
  let mut first = true;
  for def in tcx.hir_crate_items(()).definitions() {
    let did = def.to_def_id();
    let kind = tcx.def_kind(did);
    if !matches!(kind, DefKind::Struct | DefKind::Enum) {
      continue;
    }
    let adt = tcx.adt_def(did);
    let generics = tcx.generics_of(did);
    if generics.count() != 0 {
      continue;
    }
    let ty = tcx.type_of(did).instantiate_identity().skip_norm_wip();
    let env = TypingEnv::post_analysis(tcx, did);
    let layout = match tcx.layout_of(env.as_query_input(ty)) {
      Ok(l) => l,
      Err(_) => continue,
    };
    if !first {
      out.push(',');
    }
    first = false;
    let name = tcx.def_path_str(did);
    let _ = write!(
      out,
      "{}:{{\"kind\":{},\"size\":{},\"align\":{},\"repr\":{},",
      esc(&name),
      esc(if adt.is_enum() { "enum" } else { "struct" }),
      layout.size.bytes(),
      layout.align.abi.bytes(),
      esc(&format!("{:?}", adt.repr()))
    );
    if adt.is_struct() {
      out.push_str("\"fields\":[");
      for (i, f) in adt.non_enum_variant().fields.iter().enumerate() {
        if i > 0 {
          out.push(',');
        }
        let fty = tcx.type_of(f.did).instantiate_identity().skip_norm_wip();
        let fsize = tcx.layout_of(env.as_query_input(fty)).map(|l| l.size.bytes() as i64).unwrap_or(-1);
        let _ = write!(
          out,
          "{{\"name\":{},\"offset\":{},\"size\":{},\"ty\":{}}}",
          esc(&f.name.to_string()),
          layout.fields.offset(i).bytes(),
          fsize,
          esc(&ty_str(fty))
        );
      }
      out.push_str("]}");
    } else {
      out.push_str("\"variants\":[");
      for (i, (vi, v)) in adt.variants().iter_enumerated().enumerate() {
        if i > 0 {
          out.push(',');
        }
        let discr = adt.discriminant_for_variant(tcx, vi).val;
        let fs: Vec<String> = v
          .fields
          .iter()
          .map(|f| {
            let fty = tcx.type_of(f.did).instantiate_identity().skip_norm_wip();
            format!("{{\"name\":{},\"ty\":{}}}", esc(&f.name.to_string()), esc(&ty_str(fty)))
          })
          .collect();
        let _ = write!(
          out,
          "{{\"name\":{},\"discr\":{},\"fields\":[{}]}}",
          esc(&v.name.to_string()),
          discr,
          fs.join(",")
        );
      }
      out.push_str("]}");
    }
  }
}

struct Cb;
impl rustc_driver::Callbacks for Cb {
  fn after_analysis<'tcx>(&mut self, _c: &rustc_interface::interface::Compiler, tcx: TyCtxt<'tcx>) -> Compilation {
    if tcx.crate_name(LOCAL_CRATE).as_str() != CRATE {
      return Compilation::Continue;
    }
    let Ok(path) = std::env::var("MIRFACTS_OUT") else {
      return Compilation::Continue;
    };
    let mut out = String::with_capacity(8 << 20);
    let mut stats = (0usize, 0usize, 0usize);
    out.push_str("{\"crate\":\"gb_dynarec\",\"functions\":{");
    let mut first = true;
    for def in tcx.hir_body_owners() {
      let did = def.to_def_id();
      let dk = tcx.def_kind(did);
      if !matches!(dk, DefKind::Fn | DefKind::AssocFn | DefKind::Closure) {
        continue;
      }
      if !first {
        out.push(',');
      }
      first = false;
      export_fn(tcx, did, &mut out, &mut stats);
    }
    out.push_str("},\"adts\":{");
    export_adts(tcx, &mut out);
    let _ = write!(
      out,
      "}},\"stats\":{{\"functions\":{},\"asserts\":{},\"calls\":{}}}}}",
      stats.0, stats.1, stats.2
    );
    let tmp = format!("{}.tmp.{}", path, std::process::id());
    std::fs::write(&tmp, out).expect("mirfacts: write");
    std::fs::rename(&tmp, &path).expect("mirfacts: rename");
    Compilation::Continue
  }
}

fn main() {
  let mut args: Vec<String> = std::env::args().collect();
  // RUSTC_WORKSPACE_WRAPPER passes the real rustc path as argv[1].
  args.remove(1);
  rustc_driver::run_compiler(&args, &mut Cb);
}
